#!/usr/bin/env python3
"""translate/acceptsites.py <repo> <gen-dir>

Regenerates Redproxy/Gen/AcceptSites.lean from /repo's current source: every accept loop of every listener
(src/listeners/*.rs) — a `loop { .. }` / `while let .. = <accept>.await { .. }` whose body takes new clients from a
listening socket, QUIC endpoint or QUIC connection — with every `.await` the loop itself performs (what happens inside
`tokio::spawn(..)` belongs to the spawned per-client task and is left out; calls of functions defined in the same file
are expanded), classified:

  source    taking the next client: `listener.accept()`, `endpoint.accept()`, `conn.accept_bi()`, `recv_from`, `recv_msg`
  peer      waits for bytes or handshake progress of ONE client or upstream: a TLS `acceptor.accept(socket)`, a bare
            `<future>.await` (e.g. quinn's `Connecting`), reads / writes / handshakes on a stream, connects, sleeps
  squeue    a blocking `.send(..).await` into a bounded queue whose consumer is one session's relay (that relay
            does not read while its upstream is being dialled or is stalled): waits for that one peer as well
  local     everything else (in-memory bookkeeping, creating / enqueueing the context)

Textual (brace / parenthesis level) analysis.
"""
import os, re, sys

repo, gen = sys.argv[1], sys.argv[2]
LDIR = os.path.join(repo, "src", "listeners")
FILES = sorted(os.path.join(LDIR, f) for f in os.listdir(LDIR) if f.endswith(".rs") and f != "mod.rs")

SOURCE = re.compile(r"\b(listener|endpoint|conn|socket)\s*\.\s*(accept|accept_bi)\(\)\s*\.await|recv_from\(|recv_msg\(")
PEER = re.compile(
    r"\.accept\(\s*[^)\s]|read_from|write_to|write_with_body|read_u8|read_u16|read_u32|read_exact|read_line|read_until|read_to_end|"
    r"\.connect\(|lookup_host|h11c_handshake|h11c_connect|handshake\(|sleep\(|resolve\(|\.flush\(|write_all|open_bi|timeout\(|\.tick\(|"
    r"copy_bidi|on_connect\(|on_error\(|\.check\(")
SQUEUE = re.compile(r"\.\s*send\(")
COMMON = {"write", "read", "new", "lock", "get", "get_mut", "insert", "remove", "send", "recv", "clone", "shutdown", "accept", "listen",
          "init", "name", "from_value", "connect", "bind", "flush", "next", "await", "unwrap", "context", "enqueue", "create_context"}
BARE = re.compile(r"(^|[\s(=])(\w+)\s*\.await\s*$")


def strip_comments(s):
    s = re.sub(r"//[^\n]*", "", s)
    return re.sub(r"/\*.*?\*/", "", s, flags=re.S)


def match_close(s, i, op, cl):
    """s[i] == op: index of the matching closer"""
    depth = 0
    while i < len(s):
        if s[i] == op:
            depth += 1
        elif s[i] == cl:
            depth -= 1
            if depth == 0:
                return i
        i += 1
    return len(s) - 1


def fn_bodies(src):
    out = {}
    for m in re.finditer(r"\bfn\s+(\w+)\s*(<[^>]*>)?\s*\(", src):
        p = match_close(src, m.end() - 1, "(", ")")
        b = src.find("{", p)
        semi = src.find(";", p)
        if b < 0 or (0 <= semi < b):
            continue
        e = match_close(src, b, "{", "}")
        out[m.group(1)] = (b, e)
    return out


def mask_spawn(body):
    """blank out the argument of every tokio::spawn( .. )"""
    out = body
    for m in re.finditer(r"\bspawn\s*\(", body):
        e = match_close(body, m.end() - 1, "(", ")")
        out = out[:m.end()] + " " * (e - m.end()) + out[e:]
    return out


def await_exprs(text):
    res = []
    for m in re.finditer(r"\.await", text):
        e = m.start()
        st = max(text.rfind(";", 0, e), text.rfind("{", 0, e), text.rfind("}", 0, e), text.rfind("=>", 0, e))
        expr = re.sub(r"\s+", " ", text[st + 1:e + 6]).strip()
        res.append(expr)
    return res


def classify(expr):
    tail = expr[-200:]
    if SOURCE.search(tail):
        return "source"
    if PEER.search(tail):
        return "peer"
    if SQUEUE.search(tail):
        return "squeue"
    if BARE.search(tail) and not re.search(r"\)\s*\.await\s*$", tail):
        return "peer"
    return "local"


def expand(src, fns, text, depth, seen):
    """awaits of `text` (spawn arguments removed), same-file calls replaced by the callee's awaits"""
    res = []
    for expr in await_exprs(mask_spawn(text)):
        m = None
        for m2 in re.finditer(r"\b(?:self|this|Self)(?:\s*\.\s*clone\(\))?\s*(?:\.|::)\s*(\w+)\s*\(", expr):
            if m2.group(1) in fns:
                m = m2
        if m is None:
            # a method of another same-file type (`session.add_frame(..)`), unless its name is too common to attribute
            for m2 in re.finditer(r"\.\s*(\w+)\s*\(", expr):
                if m2.group(1) in fns and m2.group(1) not in COMMON:
                    m = m2
        if m and m.group(1) in fns and depth < 4 and m.group(1) not in seen and classify(expr) == "local":
            b, e = fns[m.group(1)]
            sub = expand(src, fns, src[b:e + 1], depth + 1, seen | {m.group(1)})
            res.extend(("%s > %s" % (m.group(1), x[0]), x[1]) for x in sub)
        else:
            res.append((expr[-90:], classify(expr)))
    return res


sites = []
for path in FILES:
    src = strip_comments(open(path, encoding="utf-8").read())
    t = src.find("#[cfg(test)]")
    if t >= 0:
        src = src[:t]
    rel = os.path.relpath(path, repo)
    fns = fn_bodies(src)
    for m in re.finditer(r"\bloop\s*\{|\bwhile\s+let\b[^{;]*\{", src):
        b = m.end() - 1
        e = match_close(src, b, "{", "}")
        # the enclosing function
        name = "?"
        for n, (fb, fe) in fns.items():
            if fb < m.start() < fe and (name == "?" or fb > fns[name][0]):
                name = n
        text = src[m.start():e + 1]
        aw = expand(src, fns, text, 0, {name})
        if any(c == "source" for _, c in aw):
            sites.append((rel, name, aw))

if len(sites) < 4:
    print("acceptsites: only %d accept loops found — the source no longer has the expected shape" % len(sites), file=sys.stderr)
    sys.exit(1)


def lstr(s):
    return '"' + s.replace("\\", "\\\\").replace('"', '\\"') + '"'


out = ["/- GENERATED by translate/acceptsites.py from /repo/src/listeners — do not edit -/", "namespace Redproxy.Gen", "",
       "inductive LoopAwait | source | peer | squeue | local", "  deriving Repr, DecidableEq", "",
       "/-- (file, function, awaits performed by the accept loop itself) -/",
       "def acceptSites : List (String × String × List (String × LoopAwait)) := ["]
rows = []
for (f, fn, aw) in sites:
    aws = ", ".join("(%s, .%s)" % (lstr(x), c) for x, c in aw)
    rows.append("  (%s, %s, [%s])" % (lstr(f), lstr(fn), aws))
out.append(",\n".join(rows))
out.append("]")
out.append("")
out.append("end Redproxy.Gen")
os.makedirs(gen, exist_ok=True)
open(os.path.join(gen, "AcceptSites.lean"), "w").write("\n".join(out) + "\n")
print("acceptsites: %d accept loops, %d awaits in them" % (len(sites), sum(len(s[2]) for s in sites)))
for s in sites:
    print("  %s::%s: %s" % (s[0], s[1], ", ".join("%s[%s]" % (c, x[-40:]) for x, c in s[2])))
